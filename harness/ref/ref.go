// Package ref talks to the ecosystems' own implementations through small
// adapters (TSV lines in, one answer per line out). The adapters are the
// oracles of the differential monitors; they are started per batch.
package ref

import (
	"bytes"
	"fmt"
	"os"
	"os/exec"
	"path/filepath"
	"strings"

	"verif/harness/ev"
)

type Adapter struct {
	Name string
	argv func() []string
	env  []string
}

func find(cands ...string) string {
	for _, c := range cands {
		if strings.Contains(c, "/") {
			if _, err := os.Stat(c); err == nil {
				return c
			}
			continue
		}
		if p, err := exec.LookPath(c); err == nil {
			return p
		}
	}
	return cands[0]
}

var (
	Node = &Adapter{Name: "node-semver", argv: func() []string {
		return []string{find("node", "/usr/bin/node", "/root/.nvm/versions/node/v20.20.2/bin/node"), filepath.Join(ev.Root, "ref/node/ref.js")}
	}}
	// Py is pip's own copy of packaging (21.3), the generation deps.dev mirrors.
	Py = &Adapter{Name: "pip._vendor.packaging", argv: func() []string {
		return []string{find("/root/.pyenv/versions/3.11.7/bin/python3", "python3"), filepath.Join(ev.Root, "ref/py/ref_packaging.py")}
	}}
	Rust = &Adapter{Name: "rust-semver", argv: func() []string {
		return []string{filepath.Join(ev.Root, "build/semref")}
	}}
	Maven = &Adapter{Name: "maven-artifact", argv: func() []string {
		return []string{find("java", "/usr/bin/java"), "-Xss64m", "-cp", filepath.Join(ev.Root, "build/java") + ":/usr/share/maven/lib/*", "RefMaven"}
	}}
)

// Batch sends the lines and returns one answer per line.
func (a *Adapter) Batch(lines []string) ([]string, error) {
	// The answers are a function of the questions: a batch whose output does
	// not line up (a runtime printing a warning of its own on a loaded machine
	// was seen once in a seed sweep) is simply asked again, twice at most.
	res, err := a.batchOnce(lines)
	for try := 0; err != nil && try < 2; try++ {
		res, err = a.batchOnce(lines)
	}
	return res, err
}

func (a *Adapter) batchOnce(lines []string) ([]string, error) {
	if len(lines) == 0 {
		return nil, nil
	}
	argv := a.argv()
	cmd := exec.Command(argv[0], argv[1:]...)
	cmd.Env = append(os.Environ(), a.env...)
	var in bytes.Buffer
	for _, l := range lines {
		in.WriteString(l)
		in.WriteByte('\n')
	}
	cmd.Stdin = &in
	var errb bytes.Buffer
	cmd.Stderr = &errb
	out, err := cmd.Output()
	if err != nil {
		return nil, fmt.Errorf("%s adapter: %v: %s", a.Name, err, firstLine(errb.String()))
	}
	// Exactly one newline ends the output; an empty last answer is an answer.
	res := strings.Split(strings.TrimSuffix(string(out), "\n"), "\n")
	if len(res) != len(lines) {
		return nil, fmt.Errorf("%s adapter: %d answers for %d questions (stderr: %s)", a.Name, len(res), len(lines), firstLine(errb.String()))
	}
	return res, nil
}

func firstLine(s string) string {
	if i := strings.IndexByte(s, '\n'); i >= 0 {
		return s[:i]
	}
	return s
}

// SelfTest asks textbook questions; a wrong or missing answer makes the
// monitor inconclusive rather than trusting a broken oracle.
func (a *Adapter) SelfTest(qa [][2]string) (string, error) {
	qs := []string{"ver"}
	for _, x := range qa {
		qs = append(qs, x[0])
	}
	ans, err := a.Batch(qs)
	if err != nil {
		return "", err
	}
	for i, x := range qa {
		if ans[i+1] != x[1] {
			return ans[0], fmt.Errorf("%s adapter self-test: %q answered %q, want %q", a.Name, x[0], ans[i+1], x[1])
		}
	}
	return ans[0], nil
}

func Q(parts ...string) string { return strings.Join(parts, "\t") }
