package c18

import (
	"fmt"
	"math/rand"
	"strings"

	"verif/harness/mon/c06"
	"verif/harness/uni"
)

// A Registry is what the fake Insights service serves: npm packages with the
// dependency-related fields of their package.json files and the package.json
// files found in the node_modules folders of their tarballs. It is the common
// source of (1) the service's responses and (2) the independently encoded
// universe the in-memory client is loaded with.

// Dep is one entry of a dependency section: "Name": "Req", or, when Real is
// set, the alias entry "Name": "npm:Real@Req".
type Dep struct {
	Name string `json:"name"`
	Req  string `json:"req"`
	Real string `json:"real,omitempty"`
}

// Deps are the dependency-related fields of one package.json.
type Deps struct {
	Reg    []Dep    `json:"dependencies,omitempty"`
	Dev    []Dep    `json:"devDependencies,omitempty"`
	Opt    []Dep    `json:"optionalDependencies,omitempty"`
	Peer   []Dep    `json:"peerDependencies,omitempty"`
	Bundle []string `json:"bundleDependencies,omitempty"`
}

// Bundle is a package.json found at node_modules/Dir below its holder.
type Bundle struct {
	Dir     string    `json:"dir"`  // directory name (differs from Name for a package installed under an alias)
	Name    string    `json:"name"` // name declared inside the bundled package.json
	Version string    `json:"version"`
	Deps    Deps      `json:"deps"`
	Nested  []*Bundle `json:"nested,omitempty"`
}

type Ver struct {
	Version string    `json:"version"`
	Default bool      `json:"default,omitempty"` // the version the registry calls latest
	Deps    Deps      `json:"deps"`
	Bundled []*Bundle `json:"bundled,omitempty"`
}

type Pkg struct {
	Name     string `json:"name"`
	Versions []Ver  `json:"versions"`
}

type Registry struct {
	Pkgs []Pkg `json:"pkgs"`
}

func (r *Registry) pkg(name string) *Pkg {
	for i := range r.Pkgs {
		if r.Pkgs[i].Name == name {
			return &r.Pkgs[i]
		}
	}
	return nil
}

func (r *Registry) ver(name, v string) *Ver {
	p := r.pkg(name)
	if p == nil {
		return nil
	}
	for i := range p.Versions {
		if p.Versions[i].Version == v {
			return &p.Versions[i]
		}
	}
	return nil
}

// roots lists every (package, version), in registry order.
func (r *Registry) roots() [][2]string {
	var out [][2]string
	for _, p := range r.Pkgs {
		for _, v := range p.Versions {
			out = append(out, [2]string{p.Name, v.Version})
		}
	}
	return out
}

func (r *Registry) size() int {
	n := 0
	for _, p := range r.Pkgs {
		n += len(p.Versions)
		for _, v := range p.Versions {
			walkBundles(v.Bundled, nil, func(*Bundle, []string) { n++ })
		}
	}
	return n
}

// walkBundles calls f for every bundle of a tree with the directory path that
// leads to it (outermost first, the bundle's own directory last).
func walkBundles(bs []*Bundle, path []string, f func(b *Bundle, path []string)) {
	for _, b := range bs {
		p := append(append([]string(nil), path...), b.Dir)
		f(b, p)
		walkBundles(b.Nested, p, f)
	}
}

func bundleDepth(bs []*Bundle) int {
	d := 0
	walkBundles(bs, nil, func(_ *Bundle, p []string) {
		if len(p) > d {
			d = len(p)
		}
	})
	return d
}

func (d *Deps) sections() []*[]Dep { return []*[]Dep{&d.Reg, &d.Dev, &d.Opt, &d.Peer} }

func (d *Deps) keys() map[string]bool {
	m := map[string]bool{}
	for _, s := range d.sections() {
		for _, x := range *s {
			m[x.Name] = true
		}
	}
	for _, b := range d.Bundle {
		m[b] = true
	}
	return m
}

func (d Deps) clone() Deps {
	var c Deps
	c.Reg = append([]Dep(nil), d.Reg...)
	c.Dev = append([]Dep(nil), d.Dev...)
	c.Opt = append([]Dep(nil), d.Opt...)
	c.Peer = append([]Dep(nil), d.Peer...)
	c.Bundle = append([]string(nil), d.Bundle...)
	return c
}

func cloneBundles(bs []*Bundle) []*Bundle {
	var out []*Bundle
	for _, b := range bs {
		c := *b
		c.Deps = b.Deps.clone()
		c.Nested = cloneBundles(b.Nested)
		out = append(out, &c)
	}
	return out
}

func (r *Registry) clone() *Registry {
	c := &Registry{}
	for _, p := range r.Pkgs {
		q := Pkg{Name: p.Name}
		for _, v := range p.Versions {
			w := v
			w.Deps = v.Deps.clone()
			w.Bundled = cloneBundles(v.Bundled)
			q.Versions = append(q.Versions, w)
		}
		c.Pkgs = append(c.Pkgs, q)
	}
	return c
}

// ---------------------------------------------------------------------------
// generation

// fromUniverse turns a base-stratum universe of C06's npm generator (no derived
// packages) into package.json sections. Attributes the service cannot express
// (deprecation, dist-tags other than latest, the range of a bundleDependencies
// entry) are dropped.
func fromUniverse(u *uni.Universe) *Registry {
	r := &Registry{}
	for _, name := range u.Packages() {
		p := Pkg{Name: name}
		for _, v := range u.Of(name) {
			w := Ver{Version: v.Version}
			for _, t := range strings.Split(v.Tags, ",") {
				if t == "latest" {
					w.Default = true
				}
			}
			for _, q := range v.Reqs {
				d := Dep{Name: q.Name, Req: q.Req}
				if q.KnownAs != "" {
					d = Dep{Name: q.KnownAs, Req: q.Req, Real: q.Name}
				}
				switch {
				case q.Dev:
					w.Deps.Dev = append(w.Deps.Dev, d)
				case q.Opt:
					w.Deps.Opt = append(w.Deps.Opt, d)
				case q.Scope == "peer":
					w.Deps.Peer = append(w.Deps.Peer, d)
				case q.Scope == "bundle":
					w.Deps.Bundle = append(w.Deps.Bundle, q.Name)
				default:
					w.Deps.Reg = append(w.Deps.Reg, d)
				}
			}
			p.Versions = append(p.Versions, w)
		}
		r.Pkgs = append(r.Pkgs, p)
	}
	return r
}

type genr struct {
	rng *rand.Rand
	reg *Registry
}

func (g *genr) somePkg() *Pkg { return &g.reg.Pkgs[g.rng.Intn(len(g.reg.Pkgs))] }

func (g *genr) rangeFor(p *Pkg) string {
	tv := p.Versions[g.rng.Intn(len(p.Versions))].Version
	base := strings.SplitN(tv, "-", 2)[0]
	switch g.rng.Intn(8) {
	case 0:
		return "*"
	case 1:
		return "^" + base
	case 2:
		return "~" + base
	case 3:
		return ">=" + base
	case 4:
		return tv
	case 5:
		return ">=" + base + " <9.0.0"
	case 6:
		return "<" + base + " || ^" + base
	}
	return strings.SplitN(base, ".", 2)[0] + ".x"
}

// aliasKey draws the key under which an aliased dependency on target sits.
func (g *genr) aliasKey(target string) string {
	bare := strings.NewReplacer("@", "", "/", "-").Replace(target)
	switch g.rng.Intn(4) {
	case 0:
		return "@al/" + bare // scoped alias key
	case 1:
		return "al." + bare
	}
	return "al" + bare
}

// addDeps adds n dependencies on registry packages to d, spread over the four
// sections; some of them aliased.
func (g *genr) addDeps(d *Deps, self string, n int, aliasOdds int) {
	keys := d.keys()
	for i := 0; i < n; i++ {
		t := g.somePkg()
		if t.Name == self {
			continue
		}
		x := Dep{Name: t.Name, Req: g.rangeFor(t)}
		if g.rng.Intn(aliasOdds) == 0 {
			x = Dep{Name: g.aliasKey(t.Name), Req: x.Req, Real: t.Name}
		}
		if g.rng.Intn(40) == 0 {
			// A package the registry does not have (never published, private).
			x = Dep{Name: uni.Pick(g.rng, "ghost", "@s/ghost"), Req: x.Req}
		}
		if keys[x.Name] {
			continue
		}
		keys[x.Name] = true
		switch g.rng.Intn(9) {
		case 0:
			d.Dev = append(d.Dev, x)
		case 1:
			d.Opt = append(d.Opt, x)
		case 2:
			d.Peer = append(d.Peer, x)
		default:
			d.Reg = append(d.Reg, x)
		}
	}
}

// bundle draws a bundle tree. holders are the names of the packages whose
// node_modules enclose it (root first). A bundled copy of one of its own
// holders is mostly avoided: with a requirement back on the holder that is the
// shape on which the npm resolver does not terminate (C04's finding), and such
// resolutions are skipped here anyway.
func (g *genr) bundle(holders []string, depth, maxDepth int, taken map[string]bool) *Bundle {
	t := g.somePkg()
	avoid := g.rng.Intn(12) != 0
	for tries := 0; tries < 6 && (taken[t.Name] || (avoid && contains(holders, t.Name))); tries++ {
		t = g.somePkg()
	}
	if taken[t.Name] || (avoid && contains(holders, t.Name)) {
		return nil
	}
	b := &Bundle{Dir: t.Name, Name: t.Name}
	orig := &t.Versions[g.rng.Intn(len(t.Versions))]
	b.Version = orig.Version
	if g.rng.Intn(4) == 0 {
		b.Version = "9.9.9" // a version that does not exist outside the bundle
		orig = nil
	}
	if g.rng.Intn(8) == 0 {
		// Bundled under an alias: the directory is not the package's name.
		if a := g.aliasKey(t.Name); !taken[a] {
			b.Dir = a
		}
	}
	taken[b.Dir] = true
	switch {
	case orig != nil && g.rng.Intn(2) == 0:
		// The copy has the package.json of the original.
		b.Deps = orig.Deps.clone()
	default:
		g.addDeps(&b.Deps, t.Name, g.rng.Intn(4), 4)
	}
	if depth < maxDepth && g.rng.Intn(100) < 55 {
		nn := 1 + g.rng.Intn(2)
		nt := map[string]bool{}
		for i := 0; i < nn; i++ {
			if nb := g.bundle(append(append([]string(nil), holders...), t.Name), depth+1, maxDepth, nt); nb != nil {
				b.Nested = append(b.Nested, nb)
				g.declare(&b.Deps, nb)
			}
		}
	}
	return b
}

// declare makes the holder's package.json mention a bundled package the way
// real packages do: in bundleDependencies and, mostly, in dependencies too.
func (g *genr) declare(d *Deps, b *Bundle) {
	keys := d.keys()
	// (An alias directory is rarely listed: a bundleDependencies entry is a
	// requirement on a package of that name, and an alias names none. That is
	// a frequent source of resolutions that exhaust the step budget.)
	if g.rng.Intn(10) < 7 && !contains(d.Bundle, b.Dir) && (b.Dir == b.Name || g.rng.Intn(6) == 0) {
		d.Bundle = append(d.Bundle, b.Dir)
	}
	if g.rng.Intn(2) == 0 && !keys[b.Dir] {
		x := Dep{Name: b.Dir, Req: uni.Pick(g.rng, "*", b.Version, "^"+strings.SplitN(b.Version, "-", 2)[0], ">=1.0.0")}
		if b.Dir != b.Name {
			x.Real = b.Name
		}
		d.Reg = append(d.Reg, x)
	}
}

func contains(xs []string, s string) bool {
	for _, x := range xs {
		if x == s {
			return true
		}
	}
	return false
}

// Generate draws a registry: C06's base npm universe (5-12 packages x 1-5
// versions, scoped names, all requirement kinds and range operators, aliases),
// plus further aliases in every section (scoped alias keys, scoped targets,
// sometimes a target whose name has an '@' inside) and bundle trees up to
// maxDepth on about a third of the versions.
func Generate(rng *rand.Rand, maxDepth int) *Registry {
	u := c06.GenerateStratum(rng, c06.Base)
	if rng.Intn(5) == 0 {
		// A package whose name has an '@' that is not the scope marker. With
		// ranges free of '@' the alias syntax stays unambiguous: the range starts
		// after the last '@'.
		pk := u.Packages()
		old := pk[rng.Intn(len(pk))]
		nw := strings.TrimPrefix(old, "@s/") + "@x"
		if strings.HasPrefix(old, "@s/") {
			nw = "@s/" + nw
		}
		for i := range u.Versions {
			if u.Versions[i].Name == old {
				u.Versions[i].Name = nw
			}
			for k := range u.Versions[i].Reqs {
				if u.Versions[i].Reqs[k].Name == old {
					u.Versions[i].Reqs[k].Name = nw
				}
			}
		}
	}
	g := &genr{rng: rng, reg: fromUniverse(u)}
	for pi := range g.reg.Pkgs {
		p := &g.reg.Pkgs[pi]
		for vi := range p.Versions {
			v := &p.Versions[vi]
			if rng.Intn(3) == 0 {
				g.addDeps(&v.Deps, p.Name, 1+rng.Intn(2), 2)
			}
			if rng.Intn(100) < 38 {
				nb := 1 + rng.Intn(2)
				taken := map[string]bool{}
				for i := 0; i < nb; i++ {
					if b := g.bundle([]string{p.Name}, 1, maxDepth, taken); b != nil {
						v.Bundled = append(v.Bundled, b)
						g.declare(&v.Deps, b)
					}
				}
			}
			if rng.Intn(12) == 0 {
				g.tiedNames(v, p.Name)
			}
		}
	}
	return g.reg
}

// tiedNames gives a version two requirements that go by the same name — an
// aliased dependency whose alias is also listed in bundleDependencies, or an
// alias in dependencies with a plain namesake in optionalDependencies — and
// pads its dependencies so that, with the bundled ones, more than a dozen
// requirements are ordered together: whichever client orders them, the tied
// ones must come out in the same relative order.
func (g *genr) tiedNames(v *Ver, self string) {
	t := g.somePkg()
	if t.Name == self {
		return
	}
	keys := v.Deps.keys()
	alias := g.aliasKey(t.Name)
	if keys[alias] {
		return
	}
	v.Deps.Reg = append(v.Deps.Reg, Dep{Name: alias, Req: "*", Real: t.Name})
	if g.rng.Intn(2) == 0 {
		v.Deps.Bundle = append(v.Deps.Bundle, alias)
	} else {
		v.Deps.Opt = append(v.Deps.Opt, Dep{Name: alias, Req: "*"})
	}
	for tries := 0; tries < 60 && len(v.Deps.Reg)+len(v.Deps.Dev)+len(v.Deps.Opt)+len(v.Deps.Peer)+len(v.Deps.Bundle) < 10+g.rng.Intn(6); tries++ {
		g.addDeps(&v.Deps, self, 1, 4)
	}
}

func (r *Registry) describe() string {
	var sb strings.Builder
	var pd func(ind string, d Deps)
	pd = func(ind string, d Deps) {
		f := func(xs []Dep) string {
			var s []string
			for _, x := range xs {
				if x.Real != "" {
					s = append(s, fmt.Sprintf("%s: npm:%s@%s", x.Name, x.Real, x.Req))
				} else {
					s = append(s, fmt.Sprintf("%s: %s", x.Name, x.Req))
				}
			}
			return "{" + strings.Join(s, ", ") + "}"
		}
		fmt.Fprintf(&sb, "%sdependencies=%s dev=%s optional=%s peer=%s bundleDependencies=%v\n", ind, f(d.Reg), f(d.Dev), f(d.Opt), f(d.Peer), d.Bundle)
	}
	var pb func(ind string, b *Bundle)
	pb = func(ind string, b *Bundle) {
		fmt.Fprintf(&sb, "%snode_modules/%s = %s@%s\n", ind, b.Dir, b.Name, b.Version)
		pd(ind+"  ", b.Deps)
		for _, n := range b.Nested {
			pb(ind+"  ", n)
		}
	}
	for _, p := range r.Pkgs {
		for _, v := range p.Versions {
			fmt.Fprintf(&sb, "%s@%s default=%v\n", p.Name, v.Version, v.Default)
			pd("  ", v.Deps)
			for _, b := range v.Bundled {
				pb("  ", b)
			}
		}
	}
	return sb.String()
}
