package model

import (
	"regexp"
	"strconv"
	"strings"
)

// NuGet.Versioning SemVer2 comparison (VersionComparer.Default): up to four
// numeric parts (missing = 0), then release labels: a version without labels
// is greater; labels compared pairwise, numeric < alphanumeric, numeric by
// value, text ordinal-ignore-case, fewer labels first; metadata ignored.

var nugetPattern = regexp.MustCompile(`^([0-9]+)(?:\.([0-9]+))?(?:\.([0-9]+))?(?:\.([0-9]+))?(?:-([0-9A-Za-z-]+(?:\.[0-9A-Za-z-]+)*))?(?:\+([0-9A-Za-z-]+(?:\.[0-9A-Za-z-]+)*))?$`)

type nugetVer struct {
	nums   [4]int64
	labels []string
}

func nugetParse(s string) (nugetVer, bool) {
	m := nugetPattern.FindStringSubmatch(strings.TrimSpace(s))
	if m == nil {
		return nugetVer{}, false
	}
	var v nugetVer
	for i := 0; i < 4; i++ {
		if m[i+1] != "" {
			// NuGet.Versioning reads the numbers as Int32.
			n, err := strconv.ParseInt(m[i+1], 10, 32)
			if err != nil {
				return nugetVer{}, false
			}
			v.nums[i] = n
		}
	}
	if m[5] != "" {
		v.labels = strings.Split(m[5], ".")
		for _, l := range v.labels {
			// Strict SemVer 2: numeric identifiers have no leading zeros.
			if len(l) > 1 && l[0] == '0' && allDigits(l) {
				return nugetVer{}, false
			}
		}
	}
	return v, true
}

func allDigits(s string) bool {
	for _, c := range s {
		if c < '0' || c > '9' {
			return false
		}
	}
	return s != ""
}

func NuGetValid(s string) bool { _, ok := nugetParse(s); return ok }

// int32Label reports whether a release label is numeric for NuGet: it is
// when Int32.TryParse succeeds; digits that do not fit are text.
func int32Label(s string) (int64, bool) {
	if !allDigits(s) {
		return 0, false
	}
	n, err := strconv.ParseInt(s, 10, 32)
	return n, err == nil
}

func nugetLabelCmp(a, b string) int {
	x, an := int32Label(a)
	y, bn := int32Label(b)
	switch {
	case an && bn:
		if x < y {
			return -1
		} else if x > y {
			return 1
		}
		return 0
	case an:
		return -1
	case bn:
		return 1
	}
	return strings.Compare(strings.ToUpper(a), strings.ToUpper(b)) // ordinal ignore case compares upper-cased
}

func NuGetCompare(a, b string) (int, bool) {
	x, ok1 := nugetParse(a)
	y, ok2 := nugetParse(b)
	if !ok1 || !ok2 {
		return 0, false
	}
	for i := 0; i < 4; i++ {
		if x.nums[i] != y.nums[i] {
			if x.nums[i] < y.nums[i] {
				return -1, true
			}
			return 1, true
		}
	}
	switch {
	case len(x.labels) == 0 && len(y.labels) == 0:
		return 0, true
	case len(x.labels) == 0:
		return 1, true
	case len(y.labels) == 0:
		return -1, true
	}
	for i := 0; i < len(x.labels) && i < len(y.labels); i++ {
		if c := nugetLabelCmp(x.labels[i], y.labels[i]); c != 0 {
			return c, true
		}
	}
	return sign(len(x.labels) - len(y.labels)), true
}

// NuGetCompare2: second formulation through sort keys.
func NuGetCompare2(a, b string) (int, bool) {
	x, ok1 := nugetParse(a)
	y, ok2 := nugetParse(b)
	if !ok1 || !ok2 {
		return 0, false
	}
	type lk struct {
		kind int
		n    int64
		s    string
	}
	keys := func(v nugetVer) []lk {
		var out []lk
		for _, n := range v.nums {
			out = append(out, lk{0, n, ""})
		}
		if len(v.labels) == 0 {
			return append(out, lk{2, 0, ""}) // release sorts after any label
		}
		out = append(out, lk{1, 0, ""})
		for _, l := range v.labels {
			if n, ok := int32Label(l); ok {
				out = append(out, lk{3, n, ""})
			} else {
				out = append(out, lk{4, 0, strings.ToUpper(l)})
			}
		}
		return out
	}
	A, B := keys(x), keys(y)
	for i := 0; i < len(A) && i < len(B); i++ {
		p, q := A[i], B[i]
		switch {
		case p.kind != q.kind:
			return sign(p.kind - q.kind), true
		case p.n != q.n:
			if p.n < q.n {
				return -1, true
			}
			return 1, true
		case p.s != q.s:
			return strings.Compare(p.s, q.s), true
		}
	}
	return sign(len(A) - len(B)), true
}
