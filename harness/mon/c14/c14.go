// Package c14 replays histories of LocalClient.AddVersion and read calls
// against a map-based reference model.
package c14

import (
	"context"
	"errors"
	"fmt"
	"math/rand"
	"sort"
	"strings"
	"sync"

	"deps.dev/util/resolve"
	"deps.dev/util/resolve/dep"
	"deps.dev/util/resolve/version"
	"verif/harness/ev"
	"verif/harness/gen"
	"verif/harness/model"
)

// Op is one step of a history (JSON form is what replays and witnesses hold).
type Req struct {
	Name    string `json:"name"`
	Req     string `json:"req"`
	Dev     bool   `json:"dev,omitempty"`
	Opt     bool   `json:"opt,omitempty"`
	KnownAs string `json:"known_as,omitempty"`
}

type Op struct {
	Kind    string `json:"kind"` // add | version | versions | requirements | matching
	Name    string `json:"name"`
	Version string `json:"version,omitempty"`
	Tags    string `json:"tags,omitempty"`
	Blocked bool   `json:"blocked,omitempty"`
	Deleted bool   `json:"deleted,omitempty"`
	Reqs    []Req  `json:"reqs,omitempty"`
}

type Case struct {
	Sys string `json:"sys"`
	Ops []Op   `json:"ops"`
}

var systems = map[string]resolve.System{"NPM": resolve.NPM, "Maven": resolve.Maven, "PyPI": resolve.PyPI}

type entry struct {
	tags    string
	blocked bool
	reqs    []Req
}

type mapClient struct {
	sys  resolve.System
	vers map[string]map[string]*entry // package -> version -> entry
	pkgs map[string]bool
}

func (m *mapClient) add(op Op) {
	if op.Deleted {
		return
	}
	if m.vers[op.Name] == nil {
		m.vers[op.Name] = map[string]*entry{}
	}
	m.vers[op.Name][op.Version] = &entry{tags: op.Tags, blocked: op.Blocked, reqs: op.Reqs}
	m.pkgs[op.Name] = true
	for _, q := range op.Reqs {
		m.pkgs[q.Name] = true
	}
}

func (m *mapClient) list(name string) []model.Ver {
	var l []model.Ver
	for v, e := range m.vers[name] {
		l = append(l, model.Ver{V: v, Tags: e.tags})
	}
	sort.Slice(l, func(i, j int) bool { return l[i].V < l[j].V })
	return model.Order(m.sys, l, l)
}

// reqOrder is the stated npm resolution order: dev-only last, then
// case-insensitive by name (alias name when present), lower before upper.
func (m *mapClient) reqOrder(reqs []Req) []Req {
	out := append([]Req(nil), reqs...)
	if m.sys != resolve.NPM {
		return out
	}
	name := func(q Req) string {
		if q.KnownAs != "" {
			return q.KnownAs
		}
		return q.Name
	}
	devOnly := func(q Req) bool { return q.Dev && !q.Opt && q.KnownAs == "" }
	sort.SliceStable(out, func(i, j int) bool {
		a, b := out[i], out[j]
		if devOnly(a) != devOnly(b) {
			return devOnly(b)
		}
		la, lb := strings.ToLower(name(a)), strings.ToLower(name(b))
		if la != lb {
			return la < lb
		}
		return name(a) > name(b)
	})
	return out
}

func pk(sys resolve.System, n string) resolve.PackageKey {
	return resolve.PackageKey{System: sys, Name: n}
}

func vk(sys resolve.System, n, v string, t resolve.VersionType) resolve.VersionKey {
	return resolve.VersionKey{PackageKey: pk(sys, n), VersionType: t, Version: v}
}

func mkVersion(sys resolve.System, op Op) resolve.Version {
	v := resolve.Version{VersionKey: vk(sys, op.Name, op.Version, resolve.Concrete)}
	if op.Tags != "" {
		v.SetAttr(version.Tags, op.Tags)
	}
	if op.Blocked {
		v.SetAttr(version.Blocked, "")
	}
	if op.Deleted {
		v.SetAttr(version.Deleted, "")
	}
	return v
}

func mkReqs(sys resolve.System, reqs []Req) []resolve.RequirementVersion {
	var out []resolve.RequirementVersion
	for _, q := range reqs {
		var t dep.Type
		if q.Dev {
			t.AddAttr(dep.Dev, "")
		}
		if q.Opt {
			t.AddAttr(dep.Opt, "")
		}
		if q.KnownAs != "" {
			t.AddAttr(dep.KnownAs, q.KnownAs)
		}
		out = append(out, resolve.RequirementVersion{VersionKey: vk(sys, q.Name, q.Req, resolve.Requirement), Type: t})
	}
	return out
}

func showReqs(rs []resolve.RequirementVersion) string {
	var ss []string
	for _, q := range rs {
		ss = append(ss, q.String())
	}
	return strings.Join(ss, "; ")
}

func Run(r *ev.Run, replay string) {
	r.MaxSamples = 3
	r.Rule = "histories of up to 60 operations on one LocalClient (3 systems x 4 packages x 6 versions): AddVersion of new keys, repeated keys with changed tags/blocked flag/requirements, deleted-flagged adds, each followed by Version/Versions/Requirements/MatchingVersions reads of present and absent keys; every read is compared at read time with a map-based model (attributes of the last add; each non-deleted version once in the stated order incl. npm latest repositioning; requirements of the last add in npm resolution order; every required package known; never-added = not found). The harness never mutates a slice it passed in or received. Non-trivial = distinct history with >=1 re-added key whose attributes or requirements changed."
	r.Assumptions = []string{"order model = library comparison (C02) + stated npm rules", "at most one holder of the latest tag per package at any time; Maven/PyPI version pools are tie-free"}
	if replay != "" {
		var c struct {
			Case Case `json:"case"`
		}
		if err := ev.ReadJSON(replay, &c); err != nil {
			r.Inconclusive("replay unreadable")
			return
		}
		history(r, c.Case)
		return
	}
	var wit []Case
	if err := ev.ReadJSON(ev.Root+"/witnesses/C14.json", &wit); err != nil {
		r.Inconclusive("witnesses/C14.json: " + err.Error())
	}
	for _, w := range wit {
		history(r, w)
		r.Count("witness_histories", 1)
	}
	n := r.N(20000, 1500000)
	var wg sync.WaitGroup
	for sh := 0; sh < 8; sh++ {
		wg.Add(1)
		go func(sh int) {
			defer wg.Done()
			rng := r.Rand(fmt.Sprint("h/", sh))
			for i := 0; i < n/8; i++ {
				history(r, generate(rng))
			}
		}(sh)
	}
	wg.Wait()
	r.GateNontrivial(int64(n / 4))
	for _, k := range []string{"read:version:found", "read:version:notfound", "read:versions:found", "read:versions:notfound", "read:versions:empty-known-package", "read:requirements:found", "read:requirements:notfound", "read:matching", "add:replace-changed", "add:deleted", "add:latest-moved", "read:other-key-type"} {
		r.Gate(k, int64(n/30))
	}
}

var pools = map[string][]string{
	"NPM":   {"1.0.0", "1.1.0", "2.0.0-beta", "2.0.0", "0.9.0-rc.1", "junk", "1.0.0+b", "3.0.0-alpha", "2.0.0-alpha", "2.0.0-rc.1"},
	"Maven": {"1.0", "1.1", "2.0-beta", "2.0", "0.9-rc-1", "3", "2.0-SNAPSHOT"},
	"PyPI":  {"1.0", "1.1", "2.0b1", "2.0", "0.9rc1", "1.0.post1", "3.dev1"},
}

func generate(rng *rand.Rand) Case {
	sysName := []string{"NPM", "Maven", "PyPI"}[rng.Intn(3)]
	names := []string{"a", "B", "b", "c"}[:2+rng.Intn(3)]
	// Names whose only capitals are outside ASCII included: npm's order
	// folds case for every letter.
	depNames := []string{"x", "Y", "y", "a", "zz", "\u00c9b", "\u00e9a", "\u042f\u043d", "\u044f\u0434"}
	var ops []Op
	latest := map[string]string{}     // package -> version holding latest
	cur := map[string]map[string]Op{} // package -> version -> last add
	nOps := 20 + rng.Intn(41)
	pool := append([]string(nil), pools[sysName]...)
	rng.Shuffle(len(pool), func(i, j int) { pool[i], pool[j] = pool[j], pool[i] })
	pool = pool[:3+rng.Intn(3)]
	for len(ops) < nOps {
		name := names[rng.Intn(len(names))]
		ver := pool[rng.Intn(len(pool))]
		if rng.Intn(2) == 0 {
			op := Op{Kind: "add", Name: name, Version: ver}
			kind := rng.Intn(7)
			if sysName == "NPM" && strings.Contains(ver, "-") && rng.Intn(3) == 0 {
				kind = 0 // "latest" on a prerelease: it keeps its place while the package has releases
			}
			switch kind {
			case 0:
				if sysName == "NPM" {
					// A dist-tag names one version: take it from the previous holder first.
					if h, ok := latest[name]; ok && h != ver {
						prev := cur[name][h]
						prev.Tags = strings.Trim(strings.ReplaceAll(","+prev.Tags+",", ",latest,", ","), ",")
						ops = append(ops, prev)
						cur[name][h] = prev
					}
					op.Tags = gen.Pick(rng, "latest", "latest", "current,latest,lts", "latest,next", "lts,latest", "latest-rc,latest", "next,latest-rc,latest")
					latest[name] = ver
				}
			case 1:
				op.Blocked = true
			case 2:
				op.Deleted = true
			case 3:
				if sysName == "NPM" {
					// Other tags, some of which equal "latest" up to letter case only.
					op.Tags = gen.Pick(rng, "next,beta", "next,beta", "Latest", "LATEST,next", "current,lts", "not-latest", "next,latest-2", "beta,latest-rc,x", "latest-2", "next,v1-latest", "xlatest", "pre-latest,next", "lts,notlatest", "latest.1,next")
				}
			}
			nreq := rng.Intn(4)
			if rng.Intn(15) == 0 {
				// Many requirements, several of them going by the same name (one
				// name in two sections, an alias and its plain namesake): their
				// order among themselves is the order of the addition.
				nreq = 13 + rng.Intn(10)
			}
			for i := nreq; i > 0; i-- {
				q := Req{Name: depNames[rng.Intn(len(depNames))], Req: gen.Pick(rng, "*", "^1.0.0", ">=1", "1.0", "[1.0,)")}
				if sysName == "NPM" {
					q.Dev = rng.Intn(4) == 0
					q.Opt = rng.Intn(6) == 0
					if rng.Intn(6) == 0 {
						q.KnownAs = names[rng.Intn(len(names))]
					}
				}
				op.Reqs = append(op.Reqs, q)
			}
			if !op.Deleted {
				if cur[name] == nil {
					cur[name] = map[string]Op{}
				}
				if latest[name] == ver && !hasExactTag(op.Tags, "latest") {
					delete(latest, name)
				}
				cur[name][ver] = op
			}
			ops = append(ops, op)
		}
		// Reads: of this key, and sometimes of another one (present or absent).
		rn, rv := name, ver
		if rng.Intn(3) == 0 {
			rn = append(names, depNames...)[rng.Intn(len(names)+len(depNames))]
			rv = pools[sysName][rng.Intn(len(pools[sysName]))]
		}
		ops = append(ops, Op{Kind: "version", Name: rn, Version: rv}, Op{Kind: "versions", Name: rn}, Op{Kind: "requirements", Name: rn, Version: rv})
		if rng.Intn(3) == 0 {
			// The same strings under a key of another type were never added.
			ops = append(ops, Op{Kind: "version-as-requirement-key", Name: rn, Version: rv}, Op{Kind: "requirements-as-requirement-key", Name: rn, Version: rv})
		}
		if rng.Intn(2) == 0 {
			q := gen.Pick(rng, "*", ">=1.0.0", "latest", "1.0.0", "<2", "[1.0,2.0)", "", ">=1.0", "next", "junk")
			if sysName == "NPM" && rng.Intn(3) == 0 {
				// Ranges that admit prereleases: the matches may then be
				// prereleases only, while the package has releases elsewhere.
				q = gen.Pick(rng, ">=2.0.0-alpha", "^2.0.0-alpha", ">=2.0.0-alpha <2.0.0", ">=0.9.0-rc.1 <1.0.0", ">2.0.0-alpha <=2.0.0", "v1-latest", "notlatest")
			}
			ops = append(ops, Op{Kind: "matching", Name: rn, Version: q})
		}
	}
	return Case{Sys: sysName, Ops: ops}
}

var sampled sync.Once

func hasExactTag(tags, tag string) bool {
	for _, t := range strings.Split(tags, ",") {
		if t == tag {
			return true
		}
	}
	return false
}

func history(r *ev.Run, c Case) {
	sys := systems[c.Sys]
	defer func() {
		if p := recover(); p != nil {
			r.Violation("C14:panic", fmt.Sprintf("panic replaying a %s history: %v", c.Sys, p), c)
		}
	}()
	ctx := context.Background()
	lc := resolve.NewLocalClient()
	m := &mapClient{sys: sys, vers: map[string]map[string]*entry{}, pkgs: map[string]bool{}}
	changed := false
	bad := func(i int, law, what string) {
		cc := Case{Sys: c.Sys, Ops: c.Ops[:i+1]}
		r.Violation("C14:"+c.Sys+":"+law, fmt.Sprintf("%s history, step %d (%s %s@%s): %s", c.Sys, i, c.Ops[i].Kind, c.Ops[i].Name, c.Ops[i].Version, what), cc)
	}
	// Slices handed out by earlier reads, with what they said at the time: a
	// later read (of any package) must not change an answer already given.
	type heldResult struct {
		step   int
		render func() string
		was    string
		reads  int
	}
	var held []heldResult
	hold := func(i int, render func() string) {
		held = append(held, heldResult{step: i, render: render, was: render()})
		if len(held) > 6 {
			held = held[1:]
		}
	}
	recheck := func(i int) bool {
		for k := range held {
			h := &held[k]
			h.reads++
			r.Count("held_results_rechecked", 1)
			if now := h.render(); now != h.was {
				bad(i, "earlier-result-changed", fmt.Sprintf("the slice returned at step %d (%s %s@%s) read [%s] then and reads [%s] now, %d reads later", h.step, c.Ops[h.step].Kind, c.Ops[h.step].Name, c.Ops[h.step].Version, h.was, now, h.reads))
				return false
			}
		}
		return true
	}
	for i, op := range c.Ops {
		r.Eval(1)
		if op.Kind == "add" {
			// What an addition may do to slices handed out earlier is not part
			// of the statement: start afresh.
			held = held[:0]
		} else if i > 0 && !recheck(i-1) {
			return
		}
		switch op.Kind {
		case "add":
			if old := m.vers[op.Name][op.Version]; old != nil && !op.Deleted {
				if old.tags != op.Tags || old.blocked != op.Blocked || fmt.Sprint(old.reqs) != fmt.Sprint(op.Reqs) {
					changed = true
					r.Count("add:replace-changed", 1)
					if hasExactTag(old.tags, "latest") != hasExactTag(op.Tags, "latest") {
						r.Count("add:latest-moved", 1)
					}
				}
			}
			if op.Deleted {
				r.Count("add:deleted", 1)
			}
			m.add(op)
			lc.AddVersion(mkVersion(sys, op), mkReqs(sys, op.Reqs))
		case "version":
			got, err := lc.Version(ctx, vk(sys, op.Name, op.Version, resolve.Concrete))
			e := m.vers[op.Name][op.Version]
			if e == nil {
				r.Count("read:version:notfound", 1)
				if err == nil || !errors.Is(err, resolve.ErrNotFound) {
					bad(i, "version:found-never-added", fmt.Sprintf("returned %v, %v for a version that was never added", got, err))
					return
				}
				continue
			}
			r.Count("read:version:found", 1)
			want := mkVersion(sys, Op{Name: op.Name, Version: op.Version, Tags: e.tags, Blocked: e.blocked})
			if err != nil || got.VersionKey != want.VersionKey || !got.AttrSet.Equal(want.AttrSet) {
				bad(i, "version:stale", fmt.Sprintf("returned %v (%v), last added %v", got, err, want))
				return
			}
		case "version-as-requirement-key":
			r.Count("read:other-key-type", 1)
			if got, err := lc.Version(ctx, vk(sys, op.Name, op.Version, resolve.Requirement)); err == nil || !errors.Is(err, resolve.ErrNotFound) {
				bad(i, "version:found-under-other-key-type", fmt.Sprintf("Version of the Requirement-typed key returned %v; only Concrete keys were ever added", got))
				return
			}
		case "requirements-as-requirement-key":
			if got, err := lc.Requirements(ctx, vk(sys, op.Name, op.Version, resolve.Requirement)); err == nil || !errors.Is(err, resolve.ErrNotFound) {
				bad(i, "requirements:found-under-other-key-type", fmt.Sprintf("Requirements of the Requirement-typed key returned [%s]; only Concrete keys were ever added", showReqs(got)))
				return
			}
		case "versions":
			got, err := lc.Versions(ctx, pk(sys, op.Name))
			if !m.pkgs[op.Name] {
				r.Count("read:versions:notfound", 1)
				if err == nil || !errors.Is(err, resolve.ErrNotFound) {
					bad(i, "versions:found-never-mentioned", fmt.Sprintf("returned %v, %v for a package never added nor required (want an error that is ErrNotFound)", got, err))
					return
				}
				continue
			}
			want := m.list(op.Name)
			if len(want) == 0 {
				r.Count("read:versions:empty-known-package", 1)
			} else {
				r.Count("read:versions:found", 1)
			}
			if err != nil {
				bad(i, "versions:known-package-not-found", fmt.Sprintf("error %v for a package that was added or required", err))
				return
			}
			var gs, ws []string
			for _, v := range got {
				t, _ := v.GetAttr(version.Tags)
				gs = append(gs, v.Version+"{"+t+"}")
			}
			for _, v := range want {
				ws = append(ws, v.V+"{"+v.Tags+"}")
			}
			if strings.Join(gs, " ") != strings.Join(ws, " ") {
				bad(i, "versions:list", fmt.Sprintf("returned [%s], model [%s]", strings.Join(gs, " "), strings.Join(ws, " ")))
				return
			}
			hold(i, func() string {
				var ss []string
				for _, v := range got {
					ss = append(ss, v.String())
				}
				return strings.Join(ss, " ")
			})
		case "requirements":
			got, err := lc.Requirements(ctx, vk(sys, op.Name, op.Version, resolve.Concrete))
			e := m.vers[op.Name][op.Version]
			if e == nil {
				r.Count("read:requirements:notfound", 1)
				if err == nil || !errors.Is(err, resolve.ErrNotFound) {
					bad(i, "requirements:found-never-added", fmt.Sprintf("returned [%s], %v for a version never added (want an error that is ErrNotFound)", showReqs(got), err))
					return
				}
				continue
			}
			r.Count("read:requirements:found", 1)
			want := mkReqs(sys, m.reqOrder(e.reqs))
			if err != nil || showReqs(got) != showReqs(want) {
				bad(i, "requirements:list", fmt.Sprintf("returned [%s] (%v), model [%s]", showReqs(got), err, showReqs(want)))
				return
			}
			hold(i, func() string { return showReqs(got) })
		case "matching":
			q := vk(sys, op.Name, op.Version, resolve.Requirement)
			got, err := lc.MatchingVersions(ctx, q)
			if !m.pkgs[op.Name] {
				if err == nil || !errors.Is(err, resolve.ErrNotFound) {
					bad(i, "matching:found-never-mentioned", fmt.Sprintf("returned %v, %v for a package never added nor required (want an error that is ErrNotFound)", got, err))
					return
				}
				continue
			}
			r.Count("read:matching", 1)
			if err != nil {
				bad(i, "matching:error", err.Error())
				return
			}
			full := m.list(op.Name)
			var sel []model.Ver
			_, perr := sys.Semver().ParseConstraint(op.Version)
			for _, v := range full {
				if sys == resolve.NPM && perr != nil {
					// Not a range: the version whose string or whole tag equals it.
					hit := v.V == op.Version
					for _, t := range strings.Split(v.Tags, ",") {
						if t != "" && t == op.Version {
							hit = true
						}
					}
					if hit {
						sel = append(sel, v)
					}
					continue
				}
				mv := mkVersion(sys, Op{Name: op.Name, Version: v.V, Tags: v.Tags})
				if len(resolve.MatchRequirement(q, []resolve.Version{mv})) == 1 {
					sel = append(sel, v)
				}
			}
			if sys == resolve.NPM && perr != nil && len(sel) > 1 {
				continue
			}
			want := model.Order(sys, full, sel)
			var gs, ws []string
			for _, v := range got {
				gs = append(gs, v.Version)
			}
			for _, v := range want {
				ws = append(ws, v.V)
			}
			if strings.Join(gs, " ") != strings.Join(ws, " ") {
				bad(i, "matching:list", fmt.Sprintf("MatchingVersions(%q) returned [%s], model [%s]", op.Version, strings.Join(gs, " "), strings.Join(ws, " ")))
				return
			}
			hold(i, func() string {
				var ss []string
				for _, v := range got {
					ss = append(ss, v.String())
				}
				return strings.Join(ss, " ")
			})
		}
	}
	if changed {
		r.Nontrivial(fmt.Sprint(c))
		sampled.Do(func() { r.Sample(Case{Sys: c.Sys, Ops: c.Ops[:min(12, len(c.Ops))]}) })
	}
}
