package c16

import (
	"strings"

	"deps.dev/util/semver"
)

// A shape is a recorded defect family of the marker evaluator: a structural
// predicate on one atom together with what packaging answers for that atom
// (all three families fall back to plain string operations in packaging, so
// the answer is computed here). A violating marker is attributed to a family
// only if replacing every atom of a recorded shape by a trivially true/false
// atom of the same truth makes the resolver agree with packaging, i.e. the
// shapes explain the whole disagreement. Anything else keeps the generic class.
type shape struct {
	class string
	match func(a atom, lv, rv string, vi map[string]*verInfo) (is, truth bool)
}

func libVersion(s string) bool {
	_, err := semver.PyPI.Parse(s)
	return err == nil
}

var shapes = []shape{
	{
		// in / not in between two operands the library's version parser accepts:
		// the operator is handed to ParseConstraint and resolution fails.
		class: "in-version-like",
		match: func(a atom, lv, rv string, vi map[string]*verInfo) (bool, bool) {
			if a.Op != "in" && a.Op != "not in" || !libVersion(lv) || !libVersion(rv) {
				return false, false
			}
			return true, strings.Contains(rv, lv) == (a.Op == "in")
		},
	},
	{
		// version-value <,<=,>,>= "v.*": packaging rejects the specifier and
		// compares strings, the library evaluates the range.
		class: "wildcard-ordered",
		match: func(a atom, lv, rv string, vi map[string]*verInfo) (bool, bool) {
			if !strings.HasSuffix(rv, ".*") || !libVersion(lv) || !libVersion(rv) || vi[lv] == nil {
				return false, false
			}
			switch a.Op {
			case "<":
				return true, lv < rv
			case "<=":
				return true, lv <= rv
			case ">":
				return true, lv > rv
			case ">=":
				return true, lv >= rv
			}
			return false, false
		},
	},
	{
		// "V.postN" != V: the library turns != V into [0:V),(V:inf] and the open
		// lower bound V rejects post-releases of V as `> V` must; packaging's
		// != V holds for V.postN.
		class: "not-equal-post-release-left",
		match: func(a atom, lv, rv string, vi map[string]*verInfo) (bool, bool) {
			l, r := vi[lv], vi[rv]
			if a.Op != "!=" || l == nil || r == nil || !l.Post || l.Pre || l.Local != "" || r.Post || r.Pre || r.Dev || r.Local != "" || l.Epoch != r.Epoch {
				return false, false
			}
			n := max(len(l.Release), len(r.Release))
			for i := 0; i < n; i++ {
				var x, y int
				if i < len(l.Release) {
					x = l.Release[i]
				}
				if i < len(r.Release) {
					y = r.Release[i]
				}
				if x != y {
					return false, false
				}
			}
			return true, true
		},
	},
}

// explain returns the class suffix of the first-listed recorded shape present in the
// marker if rewriting all atoms of recorded shapes makes the resolver produce
// `want`, and "" otherwise.
func explain(marker string, atoms []atom, extras []string, fromTop bool, want bool, env map[string]string, vi map[string]*verInfo) string {
	val := func(o operand) (string, bool) {
		if o.Var {
			if o.Text == "extra" {
				return "", false
			}
			return env[o.Text], true
		}
		return o.Text, true
	}
	yes := "python_version === '" + env["python_version"] + "'"
	no := "python_version === '" + env["python_version"] + "x'"
	// rewrite replaces the atoms of the recorded shapes selected by only (all
	// when only < 0) with atoms of known truth, and reports the lowest index of
	// a shape it replaced.
	rewrite := func(only int) (string, int) {
		first := -1
		rewritten := marker
		// Right to left so that earlier offsets stay valid.
		for i := len(atoms) - 1; i >= 0; i-- {
			a := atoms[i]
			lv, ok1 := val(a.L)
			rv, ok2 := val(a.R)
			if !ok1 || !ok2 {
				continue
			}
			for si, sh := range shapes {
				if is, truth := sh.match(a, lv, rv, vi); is {
					if only >= 0 && si != only {
						break
					}
					rep := no
					if truth {
						rep = yes
					}
					rewritten = rewritten[:a.Start] + rep + rewritten[a.End:]
					if first < 0 || si < first {
						first = si
					}
					break
				}
			}
		}
		return rewritten, first
	}
	agrees := func(m string) bool {
		o := resolveMarker(m, extras, fromTop)
		return o.Err == "" && o.Panic == "" && !o.Budget && o.Shape == "" && o.Edge == want
	}
	// One shape alone is responsible when rewriting only its atoms is enough
	// (another recorded shape may be present without being the cause).
	for si := range shapes {
		if m, first := rewrite(si); first == si && agrees(m) {
			return shapes[si].class
		}
	}
	m, first := rewrite(-1)
	if first < 0 || !agrees(m) {
		return ""
	}
	return shapes[first].class
}
