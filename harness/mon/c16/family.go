package c16

import (
	"math/rand"
	"strings"
)

// Families: a base marker and members that differ from it only in white space
// outside literals, white space inside one literal, the case of one literal,
// the quote style, or the order of the operands of one atom. Every member is
// compared with packaging on its own; the members of a family are resolved on
// the same shared resolver (see checkMarkers), so an implementation that
// identifies two members it must keep apart shows up as a wrong verdict for
// whichever comes second.

func quoteOf(m string, t token) byte { return m[t.start] }

// renderTokens writes the tokens back with the given separator choice. A
// separator is forced between two identifiers and is exactly one space
// between `not` and `in` (the only spelling packaging 21.3 knows).
func renderTokens(m string, ts []token, sep func() string, quote func(t token) byte, lit func(i int, s string) string) string {
	var sb strings.Builder
	for i, t := range ts {
		if i > 0 {
			s := sep()
			p := ts[i-1]
			if p.kind == 'i' && t.kind == 'i' {
				if p.text == "not" && t.text == "in" {
					s = " "
				} else if s == "" {
					s = " "
				}
			}
			sb.WriteString(s)
		}
		switch t.kind {
		case 'q':
			q := quote(t)
			sb.WriteByte(q)
			sb.WriteString(lit(i, t.text))
			sb.WriteByte(q)
		case '(', ')':
			sb.WriteByte(t.kind)
		default:
			sb.WriteString(t.text)
		}
	}
	return sb.String()
}

func quotedIdx(ts []token) []int {
	var out []int
	for i, t := range ts {
		if t.kind == 'q' {
			out = append(out, i)
		}
	}
	return out
}

// innerSpace changes the white space inside a literal: removes the blanks if
// it has any, otherwise inserts one somewhere in the middle.
func innerSpace(rng *rand.Rand, s string) string {
	if strings.Contains(s, " ") {
		switch rng.Intn(3) {
		case 0:
			return strings.ReplaceAll(s, " ", "")
		case 1:
			return strings.Replace(s, " ", "", 1)
		default:
			return strings.Replace(s, " ", "  ", 1)
		}
	}
	if len(s) < 2 {
		return s + " " + s
	}
	k := 1 + rng.Intn(len(s)-1)
	return s[:k] + " " + s[k:]
}

// family returns the base marker followed by its variants (deduplicated).
func family(rng *rand.Rand, base string) []string {
	ts, ok := tokenize(base)
	if !ok {
		return []string{base}
	}
	same := func(t token) byte { return quoteOf(base, t) }
	keep := func(i int, s string) string { return s }
	pick := func(ss ...string) func() string { return func() string { return ss[rng.Intn(len(ss))] } }
	out := []string{base}
	// White space outside literals: generous, compact, tabs.
	out = append(out,
		renderTokens(base, ts, pick(" ", "  ", "   "), same, keep),
		renderTokens(base, ts, pick(""), same, keep),
		renderTokens(base, ts, pick(" ", "\t", "", " \t"), same, keep))
	qs := quotedIdx(ts)
	if len(qs) > 0 {
		// White space inside one literal (twice, different literals/positions).
		for n := 0; n < 2; n++ {
			k := qs[rng.Intn(len(qs))]
			out = append(out, renderTokens(base, ts, pick(" "), same, func(i int, s string) string {
				if i == k {
					return innerSpace(rng, s)
				}
				return s
			}))
		}
		// The same change with the outside white space of the base removed as well.
		k := qs[rng.Intn(len(qs))]
		out = append(out, renderTokens(base, ts, pick(""), same, func(i int, s string) string {
			if i == k {
				return innerSpace(rng, s)
			}
			return s
		}))
		// Case of one literal.
		k = qs[rng.Intn(len(qs))]
		out = append(out, renderTokens(base, ts, pick(" "), same, func(i int, s string) string {
			if i == k {
				return swapCase(s)
			}
			return s
		}))
		// Quote style.
		out = append(out, renderTokens(base, ts, pick(" "), func(t token) byte {
			q := quoteOf(base, t)
			other := byte('"')
			if q == '"' {
				other = '\''
			}
			if strings.IndexByte(t.text, other) >= 0 {
				return q
			}
			return other
		}, keep))
	}
	// Operand order of one atom.
	if atoms, _, ok := scanAtoms(base); ok && len(atoms) > 0 {
		a := atoms[rng.Intn(len(atoms))]
		inner := base[a.Start:a.End]
		its, ok := tokenize(inner)
		if ok && len(its) >= 3 {
			sw := append([]token{its[len(its)-1]}, its[1:len(its)-1]...)
			sw = append(sw, its[0])
			out = append(out, base[:a.Start]+renderTokens(inner, sw, pick(" "), func(t token) byte { return quoteOf(inner, t) }, keep)+base[a.End:])
		}
	}
	return dedupStrings(out)
}

func dedupStrings(ss []string) []string {
	seen := map[string]bool{}
	var out []string
	for _, s := range ss {
		if !seen[s] {
			seen[s] = true
			out = append(out, s)
		}
	}
	return out
}

// pivot renders a small base marker one of whose atoms is decided by the exact
// text of a literal (equality with, or containment of, the variable's actual
// value), so that a change inside the literal changes the marker's truth.
func (g *mgen) pivot() string {
	name := variables[g.rng.Intn(len(variables))]
	v := g.env[name]
	var a string
	switch g.rng.Intn(6) {
	case 0:
		a = name + " == " + g.quote(v)
	case 1:
		a = name + " != " + g.quote(v)
	case 2:
		a = g.quote(v) + " in " + name
	case 3:
		a = name + " in " + g.quote(v+" "+g.pick("other", "x", v))
	case 4:
		a = name + " not in " + g.quote(v)
	default:
		// A piece of the value that spans a blank if there is one.
		piece := v
		if i := strings.IndexByte(v, ' '); i > 0 {
			j := strings.IndexByte(v[i+1:], ' ')
			if j < 0 {
				j = len(v) - i - 1
			}
			piece = v[max(0, i-3) : i+1+j]
		}
		a = g.quote(piece) + " in " + name
	}
	switch g.rng.Intn(4) {
	case 0:
		return a
	case 1:
		return a + " and " + g.atom()
	case 2:
		return g.atom() + " or " + a
	default:
		return "(" + a + ") and (" + g.atom() + " or " + g.atom() + ")"
	}
}

func stripWS(s string) string {
	return strings.Map(func(c rune) rune {
		if c == ' ' || c == '\t' {
			return -1
		}
		return c
	}, s)
}
