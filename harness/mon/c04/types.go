// Package c04 is the totality monitor: every exported parsing/matching entry
// point of util/semver, util/pypi, util/maven, util/resolve/schema,
// util/resolve and the three resolvers is fed hostile text in child
// processes. A call that panics, kills the process or does not return refutes
// the property; a Go error is a fine answer.
//
// The parent (Run) only plans batches and judges outcomes. Inputs are
// generated in the child from (seed, batch), logged to the child's own file
// before each call, and only counters come back.
package c04

import (
	"encoding/base64"
	"encoding/json"
	"fmt"
	"strconv"
	"strings"

	"verif/harness/uni"
)

// sep separates the parts of a multi-argument input (constraint SEP version,
// child pom SEP parent pom ...). Any byte string splits somehow, so every
// byte string is a legal input of every driver.
const sep = 0x1e

// Case is one executable case: the format of witnesses/C04.json entries, of
// the "case" member of replay files and of the single-case child mode.
type Case struct {
	Entry string `json:"entry"` // driver name
	Sys   string `json:"sys"`   // system name or "-"
	// Exactly one of the following gives the input bytes.
	Input    *string   `json:"input,omitempty"`        // plain text (parts separated by \u001e)
	InputB64 string    `json:"input_base64,omitempty"` // arbitrary bytes
	Long     *LongSpec `json:"input_long,omitempty"`   // long-stratum input, rebuilt from its name
	Universe *UniCase  `json:"universe,omitempty"`     // resolver drivers
	Note     string    `json:"note,omitempty"`
	Finding  string    `json:"finding,omitempty"` // id of the open finding this witness belongs to
}

// LongSpec names a long-stratum input: shape(n) built by longInput.
type LongSpec struct {
	Shape string `json:"shape"`
	N     int    `json:"n"`
}

// UniCase is the input of a resolver driver.
type UniCase struct {
	uni.Universe
	Root int `json:"root"` // index into Versions
}

// enc is the third field of a log line: base64 of the bytes, or
// "@long:<shape>:<n>" for long-stratum inputs (so that a megabyte input costs
// a few bytes in logs, witnesses and replay files).
func (c *Case) enc() (string, error) {
	switch {
	case c.Long != nil:
		return fmt.Sprintf("@long:%s:%d", c.Long.Shape, c.Long.N), nil
	case c.Universe != nil:
		b, err := json.Marshal(c.Universe)
		if err != nil {
			return "", err
		}
		return base64.StdEncoding.EncodeToString(b), nil
	case c.Input != nil:
		return base64.StdEncoding.EncodeToString([]byte(*c.Input)), nil
	default:
		if _, err := base64.StdEncoding.DecodeString(c.InputB64); err != nil {
			return "", err
		}
		return c.InputB64, nil
	}
}

// caseFromLog turns a log line (or the fields of one) back into a Case.
func caseFromLog(entry, sys, enc string) Case {
	c := Case{Entry: entry, Sys: sys}
	if strings.HasPrefix(enc, "@long:") {
		f := strings.Split(enc, ":")
		if len(f) >= 3 {
			n, _ := strconv.Atoi(f[len(f)-1])
			c.Long = &LongSpec{Shape: strings.Join(f[1:len(f)-1], ":"), N: n}
			return c
		}
	}
	if strings.HasPrefix(entry, "resolver.") {
		if b, err := base64.StdEncoding.DecodeString(enc); err == nil {
			var u UniCase
			if json.Unmarshal(b, &u) == nil {
				c.Universe = &u
				return c
			}
		}
	}
	if b, err := base64.StdEncoding.DecodeString(enc); err == nil && printable(b) {
		s := string(b)
		c.Input = &s
		return c
	}
	c.InputB64 = enc
	return c
}

func printable(b []byte) bool {
	if len(b) > 4096 {
		return false
	}
	for _, r := range string(b) {
		if r == 0xFFFD || (r < 0x20 && r != '\t' && r != '\n' && r != sep) || r == 0x7f {
			return false
		}
	}
	return true
}

// bytesOf materialises the input of a log field.
func bytesOf(d *driver, sys, enc string) ([]byte, error) {
	if strings.HasPrefix(enc, "@long:") {
		f := strings.Split(enc, ":")
		if len(f) < 3 {
			return nil, fmt.Errorf("bad long spec %q", enc)
		}
		n, err := strconv.Atoi(f[len(f)-1])
		if err != nil {
			return nil, err
		}
		return longInput(d, sys, strings.Join(f[1:len(f)-1], ":"), n)
	}
	return base64.StdEncoding.DecodeString(enc)
}

// PanicRec is one recovered panic class seen by a child.
type PanicRec struct {
	Class string   `json:"class"`
	Entry string   `json:"entry"` // driver
	Sys   string   `json:"sys"`
	Enc   string   `json:"enc"` // first input that hit it
	Msg   string   `json:"msg"`
	API   string   `json:"api"`   // outermost deps.dev frame
	Frame string   `json:"frame"` // innermost deps.dev frame
	Stack []string `json:"stack"`
	Count int64    `json:"count"`
}

// NontermRec is one resolver run that was still asking the client after the
// step budget.
type NontermRec struct {
	Class  string `json:"class"`
	Entry  string `json:"entry"`
	Sys    string `json:"sys"`
	Enc    string `json:"enc"`
	Shape  string `json:"shape"`
	Calls  int64  `json:"calls"`
	Budget int64  `json:"budget"`
	Count  int64  `json:"count"`
}

// SlowRec is one slow call (reporting only).
type SlowRec struct {
	Entry string `json:"entry"`
	Sys   string `json:"sys"`
	Enc   string `json:"enc"`
	Bytes int    `json:"bytes"`
	Ms    int64  `json:"ms"`
	Ret   string `json:"ret"`
}

// Summary is what a child prints on stdout when it finishes normally.
type Summary struct {
	Done     bool             `json:"done"`
	Calls    int64            `json:"calls"`
	API      map[string]int64 `json:"api"` // "api|sys" -> executions
	Ret      map[string]int64 `json:"ret"` // "driver|class" -> count
	Nontriv  int64            `json:"nontriv"`
	Panics   []PanicRec       `json:"panics,omitempty"`
	Nonterm  []NontermRec     `json:"nonterm,omitempty"`
	Harness  []string         `json:"harness,omitempty"` // panics without a deps.dev frame: harness trouble
	Features map[string]int64 `json:"features,omitempty"`
	Slow     []SlowRec        `json:"slow,omitempty"`
	Samples  []Case           `json:"samples,omitempty"`
	MaxSteps int64            `json:"max_steps,omitempty"` // largest client-call count of a terminating resolution
	MaxRatio float64          `json:"max_ratio,omitempty"` // ... as a fraction of its budget
}
