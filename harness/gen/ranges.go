package gen

import (
	"fmt"
	"math/rand"
	"regexp"
	"strconv"
	"strings"
)

var smallNums = []string{"0", "0", "1", "1", "2", "3", "10"}

func sn(r *rand.Rand) string { return smallNums[r.Intn(len(smallNums))] }

// SemFull is a full three-number version, sometimes with a prerelease.
func SemFull(r *rand.Rand, pre bool) string {
	s := sn(r) + "." + sn(r) + "." + sn(r)
	if pre && r.Intn(10) < 3 {
		s += "-" + Pick(r, "alpha", "beta", "rc.1", "0", "1", "a.b", "alpha.1", "rc", "0.0")
	}
	return s
}

func npmPartial(r *rand.Rand) string {
	switch k := r.Intn(20); {
	case k < 8:
		return SemFull(r, true)
	case k < 11:
		return sn(r) + "." + sn(r)
	case k < 14:
		return sn(r)
	case k < 16:
		return sn(r) + "." + sn(r) + "." + Pick(r, "x", "X", "*")
	case k < 18:
		return sn(r) + "." + Pick(r, "x", "X", "*")
	case k < 19:
		if r.Intn(3) == 0 {
			// Numbers behind a wildcard (node reads "1.x.3" as "1.x").
			return Pick(r, sn(r)+"."+Pick(r, "x", "*")+"."+sn(r), Pick(r, "x", "*")+"."+sn(r)+"."+sn(r), Pick(r, "x", "*")+"."+sn(r))
		}
		return Pick(r, "*", "x", "X")
	}
	return "v" + SemFull(r, false)
}

func npmComparator(r *rand.Rand) string {
	op := Pick(r, "", ">", ">=", "<", "<=", "=", "^", "~", "~>")
	p := npmPartial(r)
	sp := ""
	if op != "" && r.Intn(4) == 0 {
		sp = " "
	}
	return op + sp + p
}

// NPMRange generates node-semver ranges: comparator sets with every operator,
// partials, x-ranges, hyphen ranges, space-AND and ||.
func NPMRange(r *rand.Rand) string {
	alt := func() string {
		if r.Intn(7) == 0 {
			return npmPartial(r) + " - " + npmPartial(r)
		}
		n := 1 + r.Intn(3)
		parts := make([]string, n)
		for i := range parts {
			parts[i] = npmComparator(r)
		}
		return strings.Join(parts, Pick(r, " ", " ", "  "))
	}
	n := []int{1, 1, 1, 2, 3}[r.Intn(5)]
	alts := make([]string, n)
	for i := range alts {
		alts[i] = alt()
	}
	if r.Intn(12) == 0 {
		// Three alternatives: two spans share a lower bound, one of them ends at
		// a prerelease, the other is widened by an adjoining third one.
		lo, mid, hi := SemFull(r, false), SemFull(r, false), SemFull(r, false)
		pre := SemFull(r, false) + "-" + Pick(r, "rc", "alpha.1", "0")
		alts = []string{">=" + lo + " <" + mid, ">=" + mid + Pick(r, "", " <"+hi), lo + " - " + pre}
		if r.Intn(2) == 0 {
			alts[0] = Pick(r, "0.x", "1.x", lo[:1]+".x")
		}
		r.Shuffle(len(alts), func(i, j int) { alts[i], alts[j] = alts[j], alts[i] })
		return strings.Join(alts, " || ")
	}
	if n >= 2 && r.Intn(3) == 0 {
		// Alternatives that share a bound: the same version under operators
		// that include and exclude it, with different other ends.
		v := SemFull(r, false)
		lo1, lo2 := SemFull(r, false), SemFull(r, false)
		switch r.Intn(4) {
		case 0:
			alts[0], alts[1] = ">="+lo1+" <="+v, ">="+lo2+" <"+v
		case 1:
			alts[0], alts[1] = lo1+" - "+v, ">="+lo2+" <"+v
		case 2:
			alts[0], alts[1] = ">"+v+" <="+lo1, ">="+v+" <"+lo2
		default:
			alts[0], alts[1] = "<="+v, ">="+v+" <"+lo1
		}
		if r.Intn(2) == 0 {
			alts[0], alts[1] = alts[1], alts[0]
		}
	}
	return strings.Join(alts, Pick(r, " || ", "||", " ||"))
}

// PadSpace wraps a range generator: one string in forty gets white space that
// is not ASCII (no-break space, em space, ideographic space) at one of its
// ends, which the ecosystems' tools trim like any other white space.
func PadSpace(g func(*rand.Rand) string) func(*rand.Rand) string {
	return func(r *rand.Rand) string {
		s := g(r)
		if r.Intn(40) != 0 {
			return s
		}
		sp := Pick(r, "\u00a0", "\u2003", "\u3000", "\u00a0 ")
		if r.Intn(2) == 0 {
			return sp + s
		}
		return s + sp
	}
}

// SameLower wraps a range generator: one string in eight is an AND-pair of
// two ranges that start at the same version, one of them written with a
// prerelease (">=2.0.0 >=2.0.0-0", "^2 2.x-rc", "* >=0.0.0-0"), in either
// order. and is the conjunction separator (" " for npm, ", " for Cargo).
func SameLower(g func(*rand.Rand) string, and string) func(*rand.Rand) string {
	return func(r *rand.Rand) string {
		if r.Intn(8) != 0 {
			return g(r)
		}
		n, m := sn(r), sn(r)
		pre := Pick(r, "0", "rc", "alpha.1", "beta")
		var a, b string
		switch r.Intn(4) {
		case 0:
			a, b = Pick(r, "*", ">=0.0.0", "<=*"), ">=0.0.0-"+pre
		case 1:
			a, b = Pick(r, "^"+n, n+".x", n, ">="+n+".0.0", "~"+n), Pick(r, n+".x-"+pre, n+".*-"+pre, ">="+n+".0.0-"+pre)
		case 2:
			a, b = Pick(r, "^"+n+"."+m, n+"."+m+".x", "~"+n+"."+m, ">="+n+"."+m+".0"), Pick(r, n+"."+m+".x-"+pre, ">="+n+"."+m+".0-"+pre, "~"+n+"."+m+".0-"+pre)
		default:
			v := SemFull(r, false)
			a, b = ">="+v, Pick(r, ">=", "^", "~")+v+"-"+pre
		}
		if r.Intn(2) == 0 {
			a, b = b, a
		}
		return a + and + b
	}
}

func cargoPartial(r *rand.Rand) string {
	switch k := r.Intn(20); {
	case k < 9:
		return SemFull(r, true)
	case k < 13:
		return sn(r) + "." + sn(r)
	case k < 16:
		return sn(r)
	case k < 18:
		return sn(r) + "." + sn(r) + "." + Pick(r, "*", "x", "X")
	}
	return sn(r) + "." + Pick(r, "*", "x")
}

// CargoReq generates VersionReq strings: comma lists with default caret.
func CargoReq(r *rand.Rand) string {
	if r.Intn(25) == 0 {
		return "*"
	}
	n := 1 + r.Intn(3)
	parts := make([]string, n)
	for i := range parts {
		parts[i] = Pick(r, "", ">", ">=", "<", "<=", "=", "^", "~") + Pick(r, "", "", " ") + cargoPartial(r)
	}
	return strings.Join(parts, Pick(r, ", ", ","))
}

func pyRel(r *rand.Rand, n int) string {
	if n == 0 {
		n = 1 + r.Intn(4)
	}
	p := make([]string, n)
	for i := range p {
		p[i] = sn(r)
	}
	return strings.Join(p, ".")
}

// PyPISpec generates comma lists of == != <= >= < > ~= and .* forms, without
// epoch or local versions.
func PyPISpec(r *rand.Rand) string {
	clause := func() string {
		op := Pick(r, "==", "!=", "<=", ">=", "<", ">", "~=", "==", "!=")
		if (op == "==" || op == "!=") && r.Intn(5) < 2 {
			return op + pyRel(r, 1+r.Intn(3)) + ".*"
		}
		if op == "~=" {
			return op + pyRel(r, 2+r.Intn(3))
		}
		v := pyRel(r, 0)
		if r.Intn(7) == 0 {
			v += Pick(r, "a1", "b2", "rc1", ".post1", ".dev1")
		}
		sp := ""
		if r.Intn(6) == 0 {
			sp = " "
		}
		return op + sp + v
	}
	n := 1 + r.Intn(3)
	parts := make([]string, n)
	for i := range parts {
		parts[i] = clause()
	}
	return strings.Join(parts, Pick(r, ",", ",", ", "))
}

// MavenVer is a version of the Maven domain used for range bounds and
// candidates.
func MavenVer(r *rand.Rand) string {
	n := 1 + r.Intn(3)
	p := make([]string, n)
	for i := range p {
		p[i] = sn(r)
	}
	s := strings.Join(p, ".")
	if r.Intn(10) < 3 {
		s += "-" + Pick(r, "alpha", "beta", "rc", "SNAPSHOT", "sp", "foo", "alpha-1", "rc1", "M2", "beta-2")
	}
	return s
}

// MavenSpec generates unions of bracketed ranges and bare (soft) versions.
func MavenSpec(r *rand.Rand) string {
	if r.Intn(7) == 0 {
		return MavenVer(r)
	}
	one := func() string {
		if r.Intn(7) == 0 {
			return "[" + MavenVer(r) + "]"
		}
		lo, hi := "", ""
		if r.Intn(5) > 0 {
			lo = MavenVer(r)
		}
		if r.Intn(5) > 0 {
			hi = MavenVer(r)
			// An open lower bound with an upper bound that sorts below 0
			// (0-rc, 0.0-SNAPSHOT) is the recorded finding about versions
			// below 0, outside the quantifier; only its witness is run.
			for lo == "" && mavenBelowZero(hi) {
				hi = MavenVer(r)
			}
		}
		return Pick(r, "[", "(") + lo + "," + hi + Pick(r, "]", ")")
	}
	n := []int{1, 1, 1, 2, 3}[r.Intn(5)]
	parts := make([]string, n)
	for i := range parts {
		parts[i] = one()
	}
	return strings.Join(parts, ",")
}

// NuGetRange generates NuGet bracket ranges, plain and floating versions.
func NuGetRange(r *rand.Rand) string {
	v := func() string {
		n := 1 + r.Intn(4)
		p := make([]string, n)
		for i := range p {
			p[i] = sn(r)
		}
		s := strings.Join(p, ".")
		if r.Intn(4) == 0 {
			s += "-" + Pick(r, "alpha", "beta.1", "rc", "0", "RC", "Beta", "rc.Z", "ALPHA.1")
		} else if r.Intn(12) == 0 {
			// A floating prerelease as a range bound ("[1.0.0-beta*,2.0.0)").
			s += "-" + Pick(r, "beta*", "rc.*", "*", "alpha.1*")
		}
		return s
	}
	switch k := r.Intn(10); {
	case k < 3:
		return v()
	case k < 4:
		return Pick(r, "*", sn(r)+".*", sn(r)+"."+sn(r)+".*", sn(r)+"."+sn(r)+"."+sn(r)+".*", sn(r)+"."+sn(r)+"."+sn(r)+"-*")
	case k < 5:
		return "[" + v() + "]"
	}
	lo, hi := "", ""
	if r.Intn(5) > 0 {
		lo = v()
	}
	if r.Intn(5) > 0 {
		hi = v()
	}
	if lo == "" && hi == "" {
		lo = v()
	}
	return Pick(r, "[", "(") + lo + "," + hi + Pick(r, "]", ")")
}

var verLiteral = regexp.MustCompile(`[0-9]+(\.[0-9]+)*(-[0-9A-Za-z.-]*[0-9A-Za-z])?`)
var numPrefix = regexp.MustCompile(`^[0-9]+(\.[0-9]+)*`)

// Boundary derives boundary-biased candidate versions from the version
// literals occurring in a range/spec text: the literal itself padded to
// minN..maxN numbers, its successor and predecessor in each position, and
// (pre != nil) its prerelease variants.
func Boundary(text string, minN, maxN int, pre []string) []string {
	seen := map[string]bool{}
	var out []string
	add := func(s string) {
		if !seen[s] {
			seen[s] = true
			out = append(out, s)
		}
	}
	for _, lit := range verLiteral.FindAllString(text, -1) {
		np := numPrefix.FindString(lit)
		rest := lit[len(np):]
		parts := strings.Split(np, ".")
		nums := make([]int64, 0, maxN)
		for _, p := range parts {
			n, err := strconv.ParseInt(p, 10, 62)
			if err != nil {
				n = 0
			}
			nums = append(nums, n)
		}
		for len(nums) < minN {
			nums = append(nums, 0)
		}
		if len(nums) > maxN {
			nums = nums[:maxN]
		}
		join := func(ns []int64) string {
			ss := make([]string, len(ns))
			for i, n := range ns {
				ss[i] = fmt.Sprint(n)
			}
			return strings.Join(ss, ".")
		}
		base := join(nums)
		add(base)
		if rest != "" {
			add(base + rest)
		}
		for _, p := range pre {
			add(base + p)
		}
		for i := range nums {
			up := append([]int64(nil), nums...)
			up[i]++
			for j := i + 1; j < len(up); j++ {
				up[j] = 0
			}
			add(join(up))
			for _, p := range pre[:min(len(pre), 1)] {
				add(join(up) + p)
			}
			if nums[i] > 0 {
				dn := append([]int64(nil), nums...)
				dn[i]--
				add(join(dn))
				for j := i + 1; j < len(dn); j++ {
					dn[j] = 99
				}
				add(join(dn))
			}
		}
		if len(nums) < maxN {
			add(base + ".1")
		}
	}
	return out
}

func mavenBelowZero(v string) bool {
	i := strings.IndexByte(v, '-')
	if i < 0 || strings.Trim(v[:i], "0.") != "" {
		return false
	}
	q := strings.ToLower(v[i+1:])
	for _, p := range []string{"alpha", "beta", "rc", "snapshot", "m", "milestone", "cr", "a", "b"} {
		if strings.HasPrefix(q, p) {
			return true
		}
	}
	return false
}

// BothPrerelease wraps a range generator: one range in twelve is a pair of
// bounds that both carry a prerelease tag, on different x.y.z tuples
// (>=1.0.0-alpha <2.0.0-beta). Each of the two tuples then admits its own
// prereleases, which a rule looking at one bound only gets wrong.
func BothPrerelease(g func(*rand.Rand) string, sep string) func(*rand.Rand) string {
	return func(r *rand.Rand) string {
		s := g(r)
		if r.Intn(12) != 0 {
			return s
		}
		lo := fmt.Sprintf("%d.%d.%d", r.Intn(3), r.Intn(3), r.Intn(3))
		hi := fmt.Sprintf("%d.%d.%d", 1+r.Intn(3), r.Intn(3), r.Intn(3))
		pre := func() string { return Pick(r, "alpha", "beta", "rc.1", "rc", "b.2", "zz") }
		return Pick(r, ">=", ">") + lo + "-" + pre() + sep + Pick(r, "<", "<=") + hi + "-" + pre()
	}
}
